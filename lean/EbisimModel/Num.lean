/-! Scalar interface of the ebisim model: every model function is written once over `Num α`
and read twice, with `α := Float` (executable, driver) and `α := ℝ` (theorems). -/

class Transc (α : Type) where
  exp : α → α
  log : α → α
  sqrt : α → α
  rpow : α → α → α
  log10 : α → α
  ceil : α → α
  floor : α → α

class Num (α : Type) extends Transc α where
  [add : Add α] [sub : Sub α] [mul : Mul α] [div : Div α] [neg : Neg α]
  [lt : LT α] [le : LE α] [dlt : DecidableLT α] [dle : DecidableLE α]
  [natCast : NatCast α] [sci : OfScientific α] [inh : Inhabited α]
attribute [instance] Num.add Num.sub Num.mul Num.div Num.neg Num.lt Num.le Num.dlt Num.dle
  Num.natCast Num.sci Num.inh

namespace Num
variable {α : Type} [Num α]
def lit (n : Nat) : α := (n : α)
/-- `np.maximum(a, b)` (NaN-free arguments) -/
def max' (a b : α) : α := if a < b then b else a
/-- `np.minimum(a, b)` -/
def min' (a b : α) : α := if b < a then b else a
/-- `abs(x)` / `np.abs(x)` -/
def abs' (a : α) : α := if a < lit 0 then -a else a
def sq (x : α) : α := x * x
/-- `x ** n` for a literal natural exponent: repeated multiplication, as numba/CPython do for
small integer powers of floats (`x**2 = x*x`). -/
def powN (x : α) : Nat → α
  | 0 => lit 1
  | 1 => x
  | n + 2 => powN x (n + 1) * x
/-- exact table entry: the natural `n` divided by `2^k` (exact in binary64 and in ℝ) -/
def ofScaled (n k : Nat) : α := ((n : Nat) : α) / (((2 ^ k : Nat) : Nat) : α)
end Num

instance : Num Float where
  exp := Float.exp
  log := Float.log
  sqrt := Float.sqrt
  rpow := Float.pow
  log10 := Float.log10
  ceil := Float.ceil
  floor := Float.floor
  natCast := ⟨Float.ofNat⟩
